//! Virtual-time in-process network (C02-L2, C09, C13, C14, C15).
//!
//! A current-thread tokio runtime with a paused clock and a pinned RNG seed, in-memory duplex
//! pipes, a scripted connector and an mpsc-fed incoming stream. With a paused clock tokio only
//! advances time when every task is parked, so `settle()` (a 1 ms virtual sleep) returns exactly
//! when the system has gone quiescent.

use std::future::Future;
use std::io;
use std::pin::Pin;
use std::sync::atomic::{AtomicBool, AtomicU64, Ordering};
use std::sync::{Arc, Mutex};
use std::task::{Context, Poll, Waker};
use std::time::Duration;
use tokio::io::{AsyncRead, AsyncWrite, DuplexStream, ReadBuf};

pub fn runtime(seed: u64) -> tokio::runtime::Runtime {
    let mut b = tokio::runtime::Builder::new_current_thread();
    b.enable_time().start_paused(true);
    b.rng_seed(tokio::runtime::RngSeed::from_bytes(&seed.to_le_bytes()));
    b.build().unwrap_or_else(|e| crate::explore::machinery(format!("runtime: {e}")))
}

/// Let the system go quiescent (every task parked), advancing virtual time by `ms`.
pub async fn settle_ms(ms: u64) {
    tokio::time::sleep(Duration::from_millis(ms)).await;
}

pub async fn settle() {
    settle_ms(1).await;
}

/// Shared state of a severable pipe end.
#[derive(Default)]
pub struct Sever {
    cut: AtomicBool,
    wakers: Mutex<Vec<Waker>>,
    /// bytes that crossed this end towards the peer
    pub written: AtomicU64,
    /// first bytes written through this end (for "what did the peer see first")
    pub first_bytes: Mutex<Vec<u8>>,
    /// this pipe end has been dropped by whoever owned it (connection closed)
    pub dropped: AtomicBool,
    /// armed hook: the next time this end has data to read, the hook runs first and the data is
    /// handed to the reader one poll later (so that the reader's task finds both on one wake-up)
    pub on_next_data: Mutex<Option<Box<dyn FnOnce() + Send>>>,
}

impl Sever {
    pub fn cut(&self) {
        self.cut.store(true, Ordering::SeqCst);
        for w in self.wakers.lock().unwrap().drain(..) {
            w.wake();
        }
    }
    pub fn is_cut(&self) -> bool {
        self.cut.load(Ordering::SeqCst)
    }
    fn park(&self, cx: &Context<'_>) {
        let mut w = self.wakers.lock().unwrap();
        if w.len() < 8 {
            w.push(cx.waker().clone());
        } else {
            w[0] = cx.waker().clone();
        }
    }
}

/// One end of a pipe: fragmentation pattern + severing.
pub struct NetIo {
    inner: Option<DuplexStream>,
    pub sever: Arc<Sever>,
    /// cyclic limits for reads/writes (empty = unlimited)
    pattern: Vec<usize>,
    /// every k-th operation answers Pending once (0 = never)
    pending_every: usize,
    ops: usize,
    seq: usize,
    /// data read ahead while running the `on_next_data` hook
    stash: Vec<u8>,
}

impl NetIo {
    pub fn new(inner: DuplexStream, pattern: Vec<usize>, pending_every: usize) -> Self {
        NetIo { inner: Some(inner), sever: Arc::new(Sever::default()), pattern, pending_every, ops: 0, seq: 0, stash: vec![] }
    }
    fn limit(&mut self) -> Option<usize> {
        if self.pattern.is_empty() {
            None
        } else {
            let l = self.pattern[self.seq % self.pattern.len()];
            Some(l.max(1))
        }
    }
    /// Inject one `Pending` after every `pending_every` operations that transferred bytes.
    /// (Counting idle polls instead would let a task that touches the pipe twice per poll wake
    /// itself forever.)
    fn maybe_pending(&mut self, cx: &mut Context<'_>) -> bool {
        if self.pending_every > 0 && self.ops >= self.pending_every {
            self.ops = 0;
            cx.waker().wake_by_ref();
            return true;
        }
        false
    }
    fn progressed(&mut self) {
        self.ops += 1;
        self.seq += 1;
    }
}

impl Drop for NetIo {
    fn drop(&mut self) {
        self.sever.dropped.store(true, Ordering::SeqCst);
    }
}

impl AsyncRead for NetIo {
    fn poll_read(mut self: Pin<&mut Self>, cx: &mut Context<'_>, buf: &mut ReadBuf<'_>) -> Poll<io::Result<()>> {
        let this = &mut *self;
        if this.sever.is_cut() {
            this.inner = None; // the peer sees EOF
            return Poll::Ready(Ok(())); // EOF
        }
        if !this.stash.is_empty() {
            let n = this.stash.len().min(buf.remaining());
            buf.put_slice(&this.stash[..n]);
            this.stash.drain(..n);
            return Poll::Ready(Ok(()));
        }
        if this.sever.on_next_data.lock().unwrap().is_some() {
            if let Some(inner) = this.inner.as_mut() {
                let mut tmp = vec![0u8; 16 * 1024];
                let mut rb = ReadBuf::new(&mut tmp);
                return match Pin::new(inner).poll_read(cx, &mut rb) {
                    Poll::Ready(Ok(())) if !rb.filled().is_empty() => {
                        this.stash = rb.filled().to_vec();
                        if let Some(hook) = this.sever.on_next_data.lock().unwrap().take() {
                            hook();
                        }
                        cx.waker().wake_by_ref();
                        Poll::Pending
                    }
                    Poll::Ready(Ok(())) => Poll::Ready(Ok(())),
                    Poll::Ready(Err(e)) => Poll::Ready(Err(e)),
                    Poll::Pending => {
                        this.sever.park(cx);
                        Poll::Pending
                    }
                };
            }
        }
        if this.maybe_pending(cx) {
            return Poll::Pending;
        }
        let lim = this.limit();
        let Some(inner) = this.inner.as_mut() else { return Poll::Ready(Ok(())) };
        let r = match lim {
            Some(l) if l < buf.remaining() => {
                let mut tmp = vec![0u8; l];
                let mut rb = ReadBuf::new(&mut tmp);
                match Pin::new(inner).poll_read(cx, &mut rb) {
                    Poll::Ready(Ok(())) => {
                        buf.put_slice(rb.filled());
                        Poll::Ready(Ok(()))
                    }
                    other => other,
                }
            }
            _ => Pin::new(inner).poll_read(cx, buf),
        };
        match &r {
            Poll::Pending => this.sever.park(cx),
            Poll::Ready(Ok(())) => this.progressed(),
            _ => {}
        }
        r
    }
}

impl AsyncWrite for NetIo {
    fn poll_write(mut self: Pin<&mut Self>, cx: &mut Context<'_>, data: &[u8]) -> Poll<io::Result<usize>> {
        let this = &mut *self;
        if this.sever.is_cut() {
            this.inner = None;
            return Poll::Ready(Err(io::Error::new(io::ErrorKind::BrokenPipe, "connection severed")));
        }
        if this.maybe_pending(cx) {
            return Poll::Pending;
        }
        let lim = this.limit();
        let Some(inner) = this.inner.as_mut() else { return Poll::Ready(Err(io::Error::new(io::ErrorKind::BrokenPipe, "closed"))) };
        let n = lim.map(|l| l.min(data.len())).unwrap_or(data.len());
        let r = Pin::new(inner).poll_write(cx, &data[..n]);
        match &r {
            Poll::Ready(Ok(k)) => {
                this.ops += 1;
                this.seq += 1;
                this.sever.written.fetch_add(*k as u64, Ordering::Relaxed);
                let mut fb = this.sever.first_bytes.lock().unwrap();
                if fb.len() < 32 {
                    let take = (32 - fb.len()).min(*k);
                    fb.extend_from_slice(&data[..take]);
                }
            }
            Poll::Pending => this.sever.park(cx),
            _ => {}
        }
        r
    }
    fn poll_flush(mut self: Pin<&mut Self>, cx: &mut Context<'_>) -> Poll<io::Result<()>> {
        match self.inner.as_mut() {
            Some(i) => Pin::new(i).poll_flush(cx),
            None => Poll::Ready(Ok(())),
        }
    }
    fn poll_shutdown(mut self: Pin<&mut Self>, cx: &mut Context<'_>) -> Poll<io::Result<()>> {
        match self.inner.as_mut() {
            Some(i) => Pin::new(i).poll_shutdown(cx),
            None => Poll::Ready(Ok(())),
        }
    }
}

impl tonic::transport::server::Connected for NetIo {
    type ConnectInfo = ();
    fn connect_info(&self) {}
}

/// Fragmentation menu for pipes: (read/write length pattern, Pending every k-th op).
pub fn choppy_menu() -> Vec<(Vec<usize>, usize)> {
    vec![(vec![], 0), (vec![1], 0), (vec![1, 2, 3], 5), (vec![7], 2), (vec![64], 0), (vec![4096], 5)]
}

/// A fresh pipe: (client end, server end).
pub fn pipe(buf: usize, client: &(Vec<usize>, usize), server: &(Vec<usize>, usize)) -> (NetIo, NetIo) {
    let (a, b) = tokio::io::duplex(buf);
    (NetIo::new(a, client.0.clone(), client.1), NetIo::new(b, server.0.clone(), server.1))
}

/// What the scripted connector does on its next invocation.
#[derive(Clone, Copy, Debug, PartialEq, Eq)]
pub enum ConnectMode {
    Fail,
    Succeed,
    /// the attempt never answers (only a connect timeout can end it)
    Hang,
}

/// State shared between the driver and the scripted connector.
pub struct ConnectorState {
    pub mode: Mutex<ConnectMode>,
    pub invocations: AtomicU64,
    /// connector calls made without a preceding poll_ready on that instance
    pub unready_calls: AtomicU64,
    /// answer only after one Pending
    pub delayed: bool,
    pub chop_client: (Vec<usize>, usize),
    pub chop_server: (Vec<usize>, usize),
    /// sever handles of every connection handed out, in order
    pub conns: Mutex<Vec<Arc<Sever>>>,
    /// state handles of the server ends of those connections
    pub server_ends: Mutex<Vec<Arc<Sever>>>,
    /// server ends are offered here
    pub incoming: tokio::sync::mpsc::UnboundedSender<NetIo>,
    pub uris: Mutex<Vec<String>>,
}

struct YieldOnce(bool);
impl Future for YieldOnce {
    type Output = ();
    fn poll(mut self: Pin<&mut Self>, cx: &mut Context<'_>) -> Poll<()> {
        if self.0 {
            Poll::Ready(())
        } else {
            self.0 = true;
            cx.waker().wake_by_ref();
            Poll::Pending
        }
    }
}

/// The connector service handed to `Endpoint::connect_with_connector[_lazy]`.
/// What the scripted connector fails with.
pub type ConnErr = Box<dyn std::error::Error + Send + Sync>;

pub fn connector(
    st: Arc<ConnectorState>,
) -> impl tower_service::Service<http::Uri, Response = hyper_util::rt::TokioIo<NetIo>, Error = ConnErr, Future = Pin<Box<dyn Future<Output = Result<hyper_util::rt::TokioIo<NetIo>, ConnErr>> + Send>>> + Send + 'static
{
    ContractConnector { st, ready: false }
}

/// The scripted connector. It keeps the tower `Service` contract like a connector built from
/// `ConcurrencyLimit` / `Buffer` / `RateLimit` would: `call` is only legal after `poll_ready`
/// returned `Ready` on the same instance (such connectors panic otherwise, which would take the
/// channel's worker down). A call without that is counted in `ConnectorState::unready_calls`.
pub struct ContractConnector {
    st: Arc<ConnectorState>,
    ready: bool,
}

impl Clone for ContractConnector {
    fn clone(&self) -> Self {
        // readiness belongs to the instance it was obtained on
        ContractConnector { st: self.st.clone(), ready: false }
    }
}

impl tower_service::Service<http::Uri> for ContractConnector {
    type Response = hyper_util::rt::TokioIo<NetIo>;
    type Error = ConnErr;
    type Future = Pin<Box<dyn Future<Output = Result<hyper_util::rt::TokioIo<NetIo>, ConnErr>> + Send>>;
    fn poll_ready(&mut self, _cx: &mut Context<'_>) -> Poll<Result<(), ConnErr>> {
        self.ready = true;
        Poll::Ready(Ok(()))
    }
    fn call(&mut self, uri: http::Uri) -> Self::Future {
        let st = self.st.clone();
        if !std::mem::take(&mut self.ready) {
            st.unready_calls.fetch_add(1, Ordering::SeqCst);
        }
        Box::pin(async move {
            let nth = st.invocations.fetch_add(1, Ordering::SeqCst);
            st.uris.lock().unwrap().push(uri.to_string());
            if st.delayed {
                YieldOnce(false).await;
            }
            let mode = *st.mode.lock().unwrap();
            match mode {
                ConnectMode::Fail => {
                    // the reason an attempt fails rotates with the attempt number: refused, no such
                    // socket file, timed out, not permitted, unreachable, unspecified
                    const KINDS: [io::ErrorKind; 6] = [io::ErrorKind::ConnectionRefused, io::ErrorKind::NotFound, io::ErrorKind::TimedOut, io::ErrorKind::PermissionDenied, io::ErrorKind::AddrNotAvailable, io::ErrorKind::Other];
                    // ... and every attempt number = 1 mod 4, if it fails, is caused by a gRPC status of the connector's own
                    // (say, a proxy's refusal): it is still a failure to connect
                    if nth % 4 == 1 {
                        return Err(Box::new(tonic::Status::permission_denied("the connector's own refusal")) as ConnErr);
                    }
                    Err(Box::new(io::Error::new(KINDS[nth as usize % KINDS.len()], "scripted connect failure")) as ConnErr)
                }
                ConnectMode::Hang => std::future::pending().await,
                ConnectMode::Succeed => {
                    let (c, s) = pipe(1 << 16, &st.chop_client, &st.chop_server);
                    st.conns.lock().unwrap().push(c.sever.clone());
                    st.server_ends.lock().unwrap().push(s.sever.clone());
                    if st.incoming.send(s).is_err() {
                        return Err(Box::new(io::Error::new(io::ErrorKind::ConnectionRefused, "server is gone")) as ConnErr);
                    }
                    Ok(hyper_util::rt::TokioIo::new(c))
                }
            }
        }) as Pin<Box<dyn Future<Output = Result<hyper_util::rt::TokioIo<NetIo>, ConnErr>> + Send>>
    }
}

pub fn connector_state(mode: ConnectMode, delayed: bool, chop: usize) -> (Arc<ConnectorState>, tokio::sync::mpsc::UnboundedReceiver<NetIo>) {
    let (tx, rx) = tokio::sync::mpsc::unbounded_channel();
    let menu = choppy_menu();
    let st = ConnectorState {
        mode: Mutex::new(mode),
        invocations: AtomicU64::new(0),
        unready_calls: AtomicU64::new(0),
        delayed,
        chop_client: menu[chop % menu.len()].clone(),
        chop_server: menu[(chop / menu.len() + chop) % menu.len()].clone(),
        conns: Mutex::new(vec![]),
        server_ends: Mutex::new(vec![]),
        incoming: tx,
        uris: Mutex::new(vec![]),
    };
    (Arc::new(st), rx)
}

/// Incoming stream for `Server::serve_with_incoming[_shutdown]`.
pub fn incoming(rx: tokio::sync::mpsc::UnboundedReceiver<NetIo>) -> impl tokio_stream::Stream<Item = Result<NetIo, io::Error>> + Send + 'static {
    use tokio_stream::StreamExt;
    tokio_stream::wrappers::UnboundedReceiverStream::new(rx).map(Ok)
}

/// Await `fut` with a virtual-time horizon: `None` means it never completed (hang/deadlock —
/// with a paused clock the horizon is reached as soon as every task is parked).
pub async fn within<F: Future>(horizon: Duration, fut: F) -> Option<F::Output> {
    tokio::time::timeout(horizon, fut).await.ok()
}

/// Switch that ends a listener: once `close()` was called the incoming stream yields `None`
/// (like an acceptor task that went away), whatever is still queued.
#[derive(Default)]
pub struct ListenerSwitch {
    closed: AtomicBool,
    waker: Mutex<Option<Waker>>,
}

impl ListenerSwitch {
    pub fn close(&self) {
        self.closed.store(true, Ordering::SeqCst);
        if let Some(w) = self.waker.lock().unwrap().take() {
            w.wake();
        }
    }
}

pub struct SwitchedIncoming<S> {
    inner: S,
    switch: Arc<ListenerSwitch>,
}

impl<S: tokio_stream::Stream + Unpin> tokio_stream::Stream for SwitchedIncoming<S> {
    type Item = S::Item;
    fn poll_next(mut self: Pin<&mut Self>, cx: &mut Context<'_>) -> Poll<Option<S::Item>> {
        if self.switch.closed.load(Ordering::SeqCst) {
            return Poll::Ready(None);
        }
        *self.switch.waker.lock().unwrap() = Some(cx.waker().clone());
        Pin::new(&mut self.inner).poll_next(cx)
    }
}

pub fn switched<S: tokio_stream::Stream + Unpin>(inner: S, switch: Arc<ListenerSwitch>) -> SwitchedIncoming<S> {
    SwitchedIncoming { inner, switch }
}
