//! Virtual-time in-process network (C02-L2, C09, C13, C14, C15).
