//! Deterministic task scheduler (C18).
