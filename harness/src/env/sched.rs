//! Deterministic task scheduler (C18): tasks are boxed futures, a scheduling point is any poll
//! that returns `Pending`; at each point the chooser picks the task to run next. Continuing the
//! running task is the default (cost 0); switching away from a still-unfinished task is a
//! preemption (a deviation, cost 1). When the running task has finished, picking the next one is
//! free.

use crate::explore::Chooser;
use std::future::Future;
use std::pin::Pin;
use std::task::{Context, Poll, Waker};

pub type Task<'a> = Pin<Box<dyn Future<Output = ()> + 'a>>;

#[derive(Debug, Default, Clone)]
pub struct SchedReport {
    /// task ids in the order they were polled
    pub schedule: Vec<usize>,
    pub preemptions: u32,
    /// no task finished within the step budget: deadlock or livelock
    pub stuck: bool,
}

pub fn run(mut tasks: Vec<Task<'_>>, ch: &Chooser, step_budget: usize, yield_points: &dyn Fn() -> u64) -> SchedReport {
    let mut done = vec![false; tasks.len()];
    // a task whose last poll was Pending without passing a yield point is waiting for a lock
    let mut blocked = vec![false; tasks.len()];
    let mut rep = SchedReport::default();
    let mut cx = Context::from_waker(Waker::noop());
    let mut current: Option<usize> = None;
    for _ in 0..step_budget {
        let alive: Vec<usize> = (0..tasks.len()).filter(|i| !done[*i]).collect();
        if alive.is_empty() {
            return rep;
        }
        let runnable: Vec<usize> = alive.iter().copied().filter(|i| !blocked[*i]).collect();
        if runnable.is_empty() {
            rep.stuck = true; // every unfinished task waits for a lock: deadlock
            return rep;
        }
        // canonical order: the running task first (if still runnable), then ascending ids
        let mut order: Vec<usize> = vec![];
        let running = current.filter(|c| runnable.contains(c));
        if let Some(c) = running {
            order.push(c);
        }
        for a in &runnable {
            if !order.contains(a) {
                order.push(*a);
            }
        }
        let k = if running.is_some() { ch.deviate(order.len()) } else { ch.pick(order.len()) };
        let t = order[k];
        if running.is_some() && k != 0 {
            rep.preemptions += 1;
        }
        rep.schedule.push(t);
        current = Some(t);
        let before = yield_points();
        match tasks[t].as_mut().poll(&mut cx) {
            Poll::Ready(()) => {
                done[t] = true;
                blocked.iter_mut().for_each(|b| *b = false);
            }
            Poll::Pending => {
                if yield_points() == before {
                    blocked[t] = true;
                } else {
                    blocked.iter_mut().for_each(|b| *b = false);
                }
            }
        }
    }
    rep.stuck = !done.iter().all(|d| *d);
    rep
}
