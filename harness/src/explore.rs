//! The choice-vector explorer: stateless, depth-first, deviation-bounded enumeration of every
//! answer an owned environment can give, re-executing the *real* code for each path.
//!
//! * `Chooser::pick(n)`    — input/configuration choice, cost 0, always fully enumerated.
//! * `Chooser::deviate(n)` — environment choice; answer 0 is the default (cost 0), 1..n cost one
//!                           deviation each against the bound of the current run.
//!
//! A run is identified by (case index, choice vector). Replaying a vector whose entry is out of
//! range or meets a different arity than recorded is a *machinery error* (uncontrolled
//! nondeterminism), never a verdict.

use std::any::Any;
use std::collections::{BTreeMap, HashSet};
use std::panic::{catch_unwind, AssertUnwindSafe};
use std::sync::atomic::{AtomicBool, AtomicU64, AtomicUsize, Ordering};
use std::sync::{Arc, Mutex};
use std::time::{Duration, Instant};

/// Panic payload used by harness code for conditions that are *not* verdicts about tonic.
#[derive(Debug, Clone)]
pub struct Machinery(pub String);

/// Panic payload used by owned environments when the code under test keeps polling an ended
/// source (busy loop) — an observation the oracle judges.
#[derive(Debug, Clone)]
pub struct Livelock(pub String);

pub fn machinery(msg: impl Into<String>) -> ! {
    std::panic::panic_any(Machinery(msg.into()))
}

#[derive(Clone, Copy, Debug, PartialEq, Eq)]
enum Kind {
    Pick,
    Deviate,
}

#[derive(Clone, Copy, Debug)]
struct Point {
    kind: Kind,
    n: u32,
    chosen: u32,
}

#[derive(Default)]
struct ChooserState {
    prefix: Vec<u32>,
    trace: Vec<Point>,
    deviations: u32,
    bound: u32,
    diverged: Option<String>,
    notes: Vec<String>,
    flags: Vec<String>,
}

/// Handle through which the harness body and every scripted environment object of one execution
/// take their choices. `Clone + Send` because tonic requires `Send + 'static` bodies/streams.
#[derive(Clone)]
pub struct Chooser {
    st: Arc<Mutex<ChooserState>>,
}

impl Chooser {
    /// A chooser bound to no execution, for process-wide fixtures that never take a choice.
    pub fn detached() -> Self {
        Chooser::new(vec![], 0)
    }

    fn new(prefix: Vec<u32>, bound: u32) -> Self {
        Chooser {
            st: Arc::new(Mutex::new(ChooserState {
                prefix,
                bound,
                ..Default::default()
            })),
        }
    }

    fn choose(&self, kind: Kind, n: u32) -> u32 {
        assert!(n >= 1, "choice with no options");
        let mut st = self.st.lock().unwrap_or_else(|e| e.into_inner());
        let pos = st.trace.len();
        let chosen = if pos < st.prefix.len() {
            let c = st.prefix[pos];
            if c >= n && st.diverged.is_none() {
                st.diverged = Some(format!(
                    "replay divergence at position {pos}: recorded choice {c} but only {n} options"
                ));
            }
            c.min(n - 1)
        } else {
            0
        };
        if kind == Kind::Deviate && chosen > 0 {
            st.deviations += 1;
        }
        st.trace.push(Point { kind, n, chosen });
        chosen
    }

    /// Input / configuration choice among `n` options (cost 0).
    pub fn pick(&self, n: usize) -> usize {
        self.choose(Kind::Pick, n as u32) as usize
    }

    /// Environment choice among `n` answers; 0 is the default, others cost one deviation.
    /// When the deviation budget of this run is spent only the default is offered.
    pub fn deviate(&self, n: usize) -> usize {
        // Beyond the replayed prefix the default (0) is always taken; whether an alternative is
        // within the budget is decided by the odometer in `explore`, which knows the deviations
        // spent before each point.
        self.choose(Kind::Deviate, n.max(1) as u32) as usize
    }

    /// Deviations taken so far in this execution.
    pub fn deviations(&self) -> u32 {
        self.st.lock().unwrap_or_else(|e| e.into_inner()).deviations
    }

    /// Free-form note attached to this execution (shown in replays/samples).
    pub fn note(&self, s: impl Into<String>) {
        self.st
            .lock()
            .unwrap_or_else(|e| e.into_inner())
            .notes
            .push(s.into());
    }

    /// Raise a flag that the oracle of this execution can query (used by environment objects that
    /// live inside the code under test, e.g. a message source polled again after its end).
    pub fn flag(&self, s: &str) {
        let mut st = self.st.lock().unwrap_or_else(|e| e.into_inner());
        if !st.flags.iter().any(|f| f == s) {
            st.flags.push(s.to_string());
        }
    }

    pub fn has_flag(&self, s: &str) -> bool {
        self.st.lock().unwrap_or_else(|e| e.into_inner()).flags.iter().any(|f| f == s)
    }

    fn finish(&self) -> (Vec<Point>, Option<String>, Vec<String>, u32) {
        let st = self.st.lock().unwrap_or_else(|e| e.into_inner());
        (
            st.trace.clone(),
            st.diverged.clone(),
            st.notes.clone(),
            st.deviations,
        )
    }
}

/// What one execution reports back.
#[derive(Clone, Debug, Default)]
pub struct Outcome {
    /// Canonical text of everything observed (hashed for "distinct outcomes").
    pub obs: String,
    /// Non-trivial by the property's own rule (see each check's `rule`).
    pub nontrivial: bool,
    /// Violations found on this execution: (finding key, human description).
    pub violations: Vec<(String, String)>,
}

impl Outcome {
    pub fn new(obs: impl Into<String>) -> Self {
        Outcome {
            obs: obs.into(),
            nontrivial: false,
            violations: vec![],
        }
    }
    pub fn violate(&mut self, key: impl Into<String>, desc: impl Into<String>) {
        self.violations.push((key.into(), desc.into()));
    }
}

#[derive(Clone, Debug)]
pub struct ViolationRecord {
    pub key: String,
    pub desc: String,
    pub case: usize,
    pub case_desc: String,
    pub vector: Vec<u32>,
    pub deviations: u32,
    pub obs: String,
    pub count: u64,
}

#[derive(Clone, Debug)]
pub struct Config {
    /// Maximum deviation bound; bounds 0..=max are completed in order.
    pub max_bound: u32,
    /// Per-case execution cap (0 = none). Hitting it makes the run non-exhaustive.
    pub case_exec_cap: u64,
    /// Wall-clock cap for the whole exploration.
    pub wall_cap: Duration,
    pub threads: usize,
    /// Observation kinds that are violations when produced by a panic inside the body.
    pub panic_key: &'static str,
    /// Seconds without progress in a single execution before it is declared a hang.
    pub hang_secs: u64,
}

impl Default for Config {
    fn default() -> Self {
        Config {
            max_bound: 0,
            case_exec_cap: 0,
            wall_cap: Duration::from_secs(3600),
            threads: std::thread::available_parallelism()
                .map(|n| n.get())
                .unwrap_or(8)
                .min(16),
            panic_key: "panic",
            hang_secs: 60,
        }
    }
}

#[derive(Clone, Debug, Default)]
pub struct Stats {
    pub executions: u64,
    pub states: u64,
    pub transitions: u64,
    pub max_depth: usize,
    pub distinct_outcomes: u64,
    pub nontrivial_execs: u64,
    pub distinct_nontrivial: u64,
    pub by_deviations: BTreeMap<u32, u64>,
    pub bound_completed: i64,
    pub capped: bool,
    pub cap_note: String,
    pub cases: usize,
    pub samples: Vec<String>,
    pub violations: Vec<ViolationRecord>,
    pub wall_s: f64,
}

fn fnv(s: &str) -> u64 {
    let mut h: u64 = 0xcbf29ce484222325;
    for b in s.as_bytes() {
        h ^= *b as u64;
        h = h.wrapping_mul(0x100000001b3);
    }
    h
}

pub fn fnv_hex(s: &str) -> String {
    format!("{:016x}", fnv(s))
}

thread_local! {
    static LAST_PANIC: std::cell::RefCell<Option<String>> = const { std::cell::RefCell::new(None) };
}

pub fn install_quiet_panic_hook() {
    std::panic::set_hook(Box::new(|info| {
        let loc = info
            .location()
            .map(|l| format!("{}:{}", l.file(), l.line()))
            .unwrap_or_default();
        let msg = if let Some(s) = info.payload().downcast_ref::<&str>() {
            s.to_string()
        } else if let Some(s) = info.payload().downcast_ref::<String>() {
            s.clone()
        } else if let Some(m) = info.payload().downcast_ref::<Machinery>() {
            format!("MACHINERY: {}", m.0)
        } else if let Some(m) = info.payload().downcast_ref::<Livelock>() {
            format!("LIVELOCK: {}", m.0)
        } else {
            "<non-string panic>".to_string()
        };
        LAST_PANIC.with(|p| *p.borrow_mut() = Some(format!("{msg} @ {loc}")));
    }));
}

/// Result of running the body once.
pub struct RunResult {
    pub outcome: Outcome,
    pub vector: Vec<u32>,
    arities: Vec<Point>,
    pub notes: Vec<String>,
    pub deviations: u32,
}

/// Execute the body once for `prefix` under `bound`.
pub fn run_once<C, F>(cfg: &Config, case: &C, prefix: &[u32], bound: u32, body: &F) -> RunResult
where
    F: Fn(&C, &Chooser) -> Outcome,
{
    let ch = Chooser::new(prefix.to_vec(), bound);
    let res = catch_unwind(AssertUnwindSafe(|| body(case, &ch)));
    let (trace, diverged, notes, deviations) = ch.finish();
    if let Some(d) = diverged {
        machinery_exit(&format!("uncontrolled nondeterminism: {d}"));
    }
    let outcome = match res {
        Ok(o) => o,
        Err(payload) => classify_panic(cfg, payload),
    };
    RunResult {
        outcome,
        vector: trace.iter().map(|p| p.chosen).collect(),
        arities: trace,
        notes,
        deviations,
    }
}

fn classify_panic(cfg: &Config, payload: Box<dyn Any + Send>) -> Outcome {
    let text = LAST_PANIC
        .with(|p| p.borrow_mut().take())
        .unwrap_or_else(|| "<panic>".into());
    if let Some(m) = payload.downcast_ref::<Machinery>() {
        machinery_exit(&format!("harness error: {} ({text})", m.0));
    }
    if let Some(l) = payload.downcast_ref::<Livelock>() {
        let mut o = Outcome::new(format!("LIVELOCK {}", l.0));
        o.violate("livelock", format!("busy loop: {}", l.0));
        return o;
    }
    let mut o = Outcome::new(format!("PANIC {text}"));
    o.violate(cfg.panic_key, format!("panic: {text}"));
    o
}

pub fn machinery_exit(msg: &str) -> ! {
    eprintln!("MACHINERY-ERROR: {msg}");
    println!("MACHINERY-ERROR: {msg}");
    std::process::exit(2)
}

struct Shared {
    next_case: AtomicUsize,
    stop: AtomicBool,
    execs: AtomicU64,
}

/// Per-worker heartbeat for the hang monitor: (case index, started-at millis since start, vector).
struct Beat {
    case: AtomicUsize,
    started_ms: AtomicU64,
    active: AtomicBool,
    prefix: Mutex<Vec<u32>>,
}

/// Explore every case (in parallel over cases), every choice vector within each deviation bound
/// 0..=cfg.max_bound. `describe` renders a case for samples/replays.
pub fn explore<C, F, D>(cfg: &Config, cases: &[C], describe: D, body: F) -> Stats
where
    C: Sync,
    F: Fn(&C, &Chooser) -> Outcome + Sync,
    D: Fn(&C) -> String + Sync,
{
    let t0 = Instant::now();
    let mut total = Stats {
        cases: cases.len(),
        bound_completed: -1,
        ..Default::default()
    };
    let outcomes: Mutex<HashSet<u64>> = Mutex::new(HashSet::new());
    let nontrivial: Mutex<HashSet<u64>> = Mutex::new(HashSet::new());
    let viol: Mutex<BTreeMap<String, ViolationRecord>> = Mutex::new(BTreeMap::new());
    let samples: Mutex<Vec<String>> = Mutex::new(Vec::new());
    let hang_flag: Arc<Mutex<Option<(usize, Vec<u32>)>>> = Arc::new(Mutex::new(None));

    for bound in 0..=cfg.max_bound {
        let shared = Shared {
            next_case: AtomicUsize::new(0),
            stop: AtomicBool::new(false),
            execs: AtomicU64::new(0),
        };
        let agg: Mutex<Stats> = Mutex::new(Stats::default());
        let beats: Vec<Beat> = (0..cfg.threads)
            .map(|_| Beat {
                case: AtomicUsize::new(0),
                started_ms: AtomicU64::new(0),
                active: AtomicBool::new(false),
                prefix: Mutex::new(vec![]),
            })
            .collect();
        let done = AtomicBool::new(false);
        std::thread::scope(|scope| {
            // hang monitor
            scope.spawn(|| {
                while !done.load(Ordering::Relaxed) {
                    std::thread::sleep(Duration::from_millis(200));
                    let now = t0.elapsed().as_millis() as u64;
                    for b in &beats {
                        if b.active.load(Ordering::Relaxed) {
                            let st = b.started_ms.load(Ordering::Relaxed);
                            if now.saturating_sub(st) > cfg.hang_secs * 1000 {
                                let case = b.case.load(Ordering::Relaxed);
                                let v = b.prefix.lock().unwrap().clone();
                                *hang_flag.lock().unwrap() = Some((case, v.clone()));
                                // A hung execution cannot be unwound: report and leave.
                                let path = write_hang_replay(case, &describe(&cases[case]), &v);
                                println!(
                                    "HANG case={} vector={:?} replay={}",
                                    case, v, path
                                );
                                hang_exit(&path);
                            }
                        }
                    }
                    if t0.elapsed() > cfg.wall_cap {
                        shared.stop.store(true, Ordering::Relaxed);
                    }
                }
            });
            let mut handles = vec![];
            for w in 0..cfg.threads {
                let shared = &shared;
                let agg = &agg;
                let body = &body;
                let describe = &describe;
                let outcomes = &outcomes;
                let nontrivial = &nontrivial;
                let viol = &viol;
                let samples = &samples;
                let beat = &beats[w];
                handles.push(scope.spawn(move || {
                    install_quiet_panic_hook();
                    let mut local = Stats::default();
                    let mut local_out: HashSet<u64> = HashSet::new();
                    let mut local_nt: HashSet<u64> = HashSet::new();
                    loop {
                        if shared.stop.load(Ordering::Relaxed) {
                            local.capped = true;
                            local.cap_note = "wall cap hit".into();
                            break;
                        }
                        let ci = shared.next_case.fetch_add(1, Ordering::Relaxed);
                        if ci >= cases.len() {
                            break;
                        }
                        let case = &cases[ci];
                        let mut prefix: Vec<u32> = vec![];
                        let mut case_execs: u64 = 0;
                        local.states += 1; // root
                        loop {
                            beat.case.store(ci, Ordering::Relaxed);
                            *beat.prefix.lock().unwrap() = prefix.clone();
                            beat.started_ms
                                .store(t0.elapsed().as_millis() as u64, Ordering::Relaxed);
                            beat.active.store(true, Ordering::Relaxed);
                            let r = run_once(cfg, case, &prefix, bound, body);
                            beat.active.store(false, Ordering::Relaxed);
                            case_execs += 1;
                            local.executions += 1;
                            let shared_edges = prefix.len().saturating_sub(1);
                            let new_edges = r.vector.len().saturating_sub(shared_edges) as u64;
                            local.transitions += new_edges;
                            local.states += new_edges;
                            local.max_depth = local.max_depth.max(r.vector.len());
                            *local.by_deviations.entry(r.deviations).or_insert(0) += 1;
                            let h = fnv(&r.outcome.obs);
                            local_out.insert(h);
                            if r.outcome.nontrivial {
                                local.nontrivial_execs += 1;
                                local_nt.insert(h ^ fnv(&format!("{ci}:{:?}", r.vector)));
                            }
                            if local.executions % 4096 == 1 {
                                let mut s = samples.lock().unwrap();
                                if s.len() < 12 {
                                    s.push(format!(
                                        "case[{ci}] {} | choices {:?} | notes {:?} | obs {}",
                                        describe(case),
                                        r.vector,
                                        r.notes,
                                        truncate(&r.outcome.obs, 400)
                                    ));
                                }
                            }
                            for (key, desc) in &r.outcome.violations {
                                let mut v = viol.lock().unwrap();
                                let e = v.entry(key.clone()).or_insert_with(|| ViolationRecord {
                                    key: key.clone(),
                                    desc: desc.clone(),
                                    case: ci,
                                    case_desc: describe(case),
                                    vector: r.vector.clone(),
                                    deviations: r.deviations,
                                    obs: r.outcome.obs.clone(),
                                    count: 0,
                                });
                                e.count += 1;
                                // keep the minimal-first example: lowest (deviations, case, len)
                                if (r.deviations, ci, r.vector.len())
                                    < (e.deviations, e.case, e.vector.len())
                                {
                                    e.desc = desc.clone();
                                    e.case = ci;
                                    e.case_desc = describe(case);
                                    e.vector = r.vector.clone();
                                    e.deviations = r.deviations;
                                    e.obs = r.outcome.obs.clone();
                                }
                            }
                            // odometer: find the deepest point with an untried alternative
                            let mut next: Option<Vec<u32>> = None;
                            let tr = &r.arities;
                            // deviations used strictly before index i
                            let mut dev_before = vec![0u32; tr.len() + 1];
                            for (i, p) in tr.iter().enumerate() {
                                dev_before[i + 1] = dev_before[i]
                                    + if p.kind == Kind::Deviate && p.chosen > 0 { 1 } else { 0 };
                            }
                            for i in (0..tr.len()).rev() {
                                let p = tr[i];
                                if p.chosen + 1 < p.n {
                                    let ok = match p.kind {
                                        Kind::Pick => true,
                                        Kind::Deviate => dev_before[i] + 1 <= bound,
                                    };
                                    if ok {
                                        let mut v: Vec<u32> =
                                            tr[..i].iter().map(|q| q.chosen).collect();
                                        v.push(p.chosen + 1);
                                        next = Some(v);
                                        break;
                                    }
                                }
                            }
                            shared.execs.fetch_add(1, Ordering::Relaxed);
                            match next {
                                None => break,
                                Some(v) => prefix = v,
                            }
                            if cfg.case_exec_cap > 0 && case_execs >= cfg.case_exec_cap {
                                local.capped = true;
                                local.cap_note = format!(
                                    "case {ci} stopped at the per-case cap of {} executions",
                                    cfg.case_exec_cap
                                );
                                break;
                            }
                            if shared.stop.load(Ordering::Relaxed) {
                                local.capped = true;
                                local.cap_note = "wall cap hit".into();
                                break;
                            }
                        }
                    }
                    outcomes.lock().unwrap().extend(local_out);
                    nontrivial.lock().unwrap().extend(local_nt);
                    let mut a = agg.lock().unwrap();
                    a.executions += local.executions;
                    a.states += local.states;
                    a.transitions += local.transitions;
                    a.max_depth = a.max_depth.max(local.max_depth);
                    a.nontrivial_execs += local.nontrivial_execs;
                    for (k, v) in local.by_deviations {
                        *a.by_deviations.entry(k).or_insert(0) += v;
                    }
                    if local.capped {
                        a.capped = true;
                        a.cap_note = local.cap_note;
                    }
                }));
            }
            for h in handles {
                if h.join().is_err() {
                    machinery_exit("worker thread died");
                }
            }
            done.store(true, Ordering::Relaxed);
        });
        let a = agg.into_inner().unwrap();
        // The run at the highest completed bound subsumes the lower ones; report that run's tree,
        // and the cumulative number of executions actually performed.
        total.executions += a.executions;
        total.states = a.states;
        total.transitions = a.transitions;
        total.max_depth = total.max_depth.max(a.max_depth);
        total.nontrivial_execs = a.nontrivial_execs;
        total.by_deviations = a.by_deviations;
        if a.capped {
            total.capped = true;
            total.cap_note = a.cap_note;
            break;
        }
        total.bound_completed = bound as i64;
        // stop early at the first bound that shows an (unknown-key) violation: it has the fewest
        // deviations. Known findings are filtered by the caller, so keep going only if asked.
    }
    total.distinct_outcomes = outcomes.into_inner().unwrap().len() as u64;
    total.distinct_nontrivial = nontrivial.into_inner().unwrap().len() as u64;
    total.samples = samples.into_inner().unwrap();
    total.violations = viol.into_inner().unwrap().into_values().collect();
    total.wall_s = t0.elapsed().as_secs_f64();
    total
}

static HANG_PROPERTY: Mutex<Option<(String, bool)>> = Mutex::new(None);

/// Tell the monitor which property is running and whether a hang is a verdict for it.
pub fn set_hang_policy(property: &str, hang_is_violation: bool) {
    *HANG_PROPERTY.lock().unwrap() = Some((property.to_string(), hang_is_violation));
}

fn write_hang_replay(case: usize, desc: &str, v: &[u32]) -> String {
    let (prop, _) = HANG_PROPERTY
        .lock()
        .unwrap()
        .clone()
        .unwrap_or(("UNKNOWN".into(), false));
    let _ = std::fs::create_dir_all("replays");
    let path = format!("replays/{prop}-hang-{}.json", fnv_hex(&format!("{case}{v:?}")));
    let j = serde_json::json!({"property": prop, "kind": "hang", "case": case, "case_desc": desc, "vector": v});
    let _ = std::fs::write(&path, serde_json::to_string_pretty(&j).unwrap());
    path
}

fn hang_exit(path: &str) -> ! {
    let (prop, is_v) = HANG_PROPERTY
        .lock()
        .unwrap()
        .clone()
        .unwrap_or(("UNKNOWN".into(), false));
    if is_v {
        println!("VIOLATION property={prop} replay={path}");
        std::process::exit(1)
    } else {
        machinery_exit(&format!("execution hung (replay {path})"))
    }
}

pub fn truncate(s: &str, n: usize) -> String {
    if s.len() <= n {
        s.to_string()
    } else {
        let mut end = n;
        while !s.is_char_boundary(end) {
            end -= 1;
        }
        format!("{}…(+{} bytes)", &s[..end], s.len() - end)
    }
}
