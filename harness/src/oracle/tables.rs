//! Tables transcribed from grpc/doc (http-grpc-status-mapping.md, PROTOCOL-HTTP2.md,
//! statuscodes.md), not from tonic. Codes are numeric.

pub const OK: i32 = 0;
pub const CANCELLED: i32 = 1;
pub const UNKNOWN: i32 = 2;
pub const INVALID_ARGUMENT: i32 = 3;
pub const DEADLINE_EXCEEDED: i32 = 4;
pub const NOT_FOUND: i32 = 5;
pub const ALREADY_EXISTS: i32 = 6;
pub const PERMISSION_DENIED: i32 = 7;
pub const RESOURCE_EXHAUSTED: i32 = 8;
pub const FAILED_PRECONDITION: i32 = 9;
pub const ABORTED: i32 = 10;
pub const OUT_OF_RANGE: i32 = 11;
pub const UNIMPLEMENTED: i32 = 12;
pub const INTERNAL: i32 = 13;
pub const UNAVAILABLE: i32 = 14;
pub const DATA_LOSS: i32 = 15;
pub const UNAUTHENTICATED: i32 = 16;

/// http-grpc-status-mapping.md (as restated in property C04).
pub fn code_from_http_status(status: u16) -> i32 {
    match status {
        400 => INTERNAL,
        401 => UNAUTHENTICATED,
        403 => PERMISSION_DENIED,
        404 => UNIMPLEMENTED,
        429 | 502 | 503 | 504 => UNAVAILABLE,
        _ => UNKNOWN,
    }
}

/// PROTOCOL-HTTP2.md "Errors": HTTP/2 error code -> gRPC status code. `None` = unconstrained by
/// the property (STREAM_CLOSED, HTTP_1_1_REQUIRED, unknown codes).
pub fn code_from_h2_reason(reason: u32) -> Option<i32> {
    match reason {
        0x0 => Some(INTERNAL),            // NO_ERROR
        0x1 => Some(INTERNAL),            // PROTOCOL_ERROR
        0x2 => Some(INTERNAL),            // INTERNAL_ERROR
        0x3 => Some(INTERNAL),            // FLOW_CONTROL_ERROR
        0x4 => Some(INTERNAL),            // SETTINGS_TIMEOUT
        0x5 => None,                      // STREAM_CLOSED: "no mapping"
        0x6 => Some(INTERNAL),            // FRAME_SIZE_ERROR
        0x7 => Some(UNAVAILABLE),         // REFUSED_STREAM
        0x8 => Some(CANCELLED),           // CANCEL
        0x9 => Some(INTERNAL),            // COMPRESSION_ERROR
        0xa => Some(INTERNAL),            // CONNECT_ERROR
        0xb => Some(RESOURCE_EXHAUSTED),  // ENHANCE_YOUR_CALM
        0xc => Some(PERMISSION_DENIED),   // INADEQUATE_SECURITY
        _ => None,
    }
}

/// Header names reserved by the protocol and never to be emitted from user metadata (C08).
pub const RESERVED: [&str; 6] = [
    "te",
    "user-agent",
    "content-type",
    "grpc-status",
    "grpc-message",
    "grpc-message-type",
];
