//! Fully-qualified names declared by a protobuf `FileDescriptorProto`.
//!
//! Written from the protobuf language guide ("Packages and Name Resolution") and the comments of
//! `descriptor.proto`; nothing here calls into tonic.
//!
//! * a top-level declaration `N` of a file with package `p` is `p.N` (just `N` without a package);
//! * a declaration nested in message `M` is `<fqn of M>.N` — this covers nested messages, nested
//!   enums, fields and oneofs;
//! * a method `m` of service `S` is `<fqn of S>.m`;
//! * enum *values* are the one irregular case: protobuf scopes them as **siblings** of their enum
//!   (`p.VALUE`, or `p.M.VALUE` for an enum nested in `M`), while some reflection servers index
//!   them under the enum (`p.E.VALUE`). Both spellings are returned; callers decide.

use prost_types::{DescriptorProto, EnumDescriptorProto, FileDescriptorProto};

#[derive(Clone, Copy, Debug, PartialEq, Eq, Hash, PartialOrd, Ord)]
pub enum Kind {
    Message,
    NestedMessage,
    Field,
    Oneof,
    Enum,
    NestedEnum,
    EnumValue,
    NestedEnumValue,
    Service,
    Method,
}

impl Kind {
    /// Short stable token used in finding keys.
    pub fn token(&self) -> &'static str {
        match self {
            Kind::Message => "message",
            Kind::NestedMessage => "nested-message",
            Kind::Field => "field",
            Kind::Oneof => "oneof",
            Kind::Enum => "enum",
            Kind::NestedEnum => "nested-enum",
            Kind::EnumValue => "enum-value",
            Kind::NestedEnumValue => "nested-enum-value",
            Kind::Service => "service",
            Kind::Method => "method",
        }
    }
}

/// One declaration. `names` holds the acceptable spellings of its fully-qualified name: exactly
/// one, except for enum values where it is `[sibling-scope spelling, enum-qualified spelling]`.
#[derive(Clone, Debug, PartialEq, Eq)]
pub struct Decl {
    pub kind: Kind,
    pub names: Vec<String>,
    /// Number of message scopes enclosing the declaration (0 = directly in the file).
    pub depth: usize,
}

pub fn join(scope: &str, name: &str) -> String {
    if scope.is_empty() {
        name.to_string()
    } else {
        let mut s = String::with_capacity(scope.len() + 1 + name.len());
        s.push_str(scope);
        s.push('.');
        s.push_str(name);
        s
    }
}

fn enum_decls(out: &mut Vec<Decl>, scope: &str, depth: usize, e: &EnumDescriptorProto) {
    let nested = depth > 0;
    let efqn = join(scope, e.name());
    out.push(Decl { kind: if nested { Kind::NestedEnum } else { Kind::Enum }, names: vec![efqn.clone()], depth });
    for v in &e.value {
        out.push(Decl {
            kind: if nested { Kind::NestedEnumValue } else { Kind::EnumValue },
            names: vec![join(scope, v.name()), join(&efqn, v.name())],
            depth,
        });
    }
}

/// Every name declared by `fd`, in a deterministic order (messages breadth-first, then top-level
/// enums, then services). Extensions are not listed (the property does not name them).
pub fn declared(fd: &FileDescriptorProto) -> Vec<Decl> {
    let mut out = Vec::new();
    let pkg = fd.package().to_string();
    // explicit work list instead of recursion: (enclosing scope, message, nesting depth)
    let mut work: std::collections::VecDeque<(String, &DescriptorProto, usize)> =
        fd.message_type.iter().map(|m| (pkg.clone(), m, 0usize)).collect();
    while let Some((scope, m, depth)) = work.pop_front() {
        let mfqn = join(&scope, m.name());
        out.push(Decl { kind: if depth > 0 { Kind::NestedMessage } else { Kind::Message }, names: vec![mfqn.clone()], depth });
        for f in &m.field {
            out.push(Decl { kind: Kind::Field, names: vec![join(&mfqn, f.name())], depth: depth + 1 });
        }
        for o in &m.oneof_decl {
            out.push(Decl { kind: Kind::Oneof, names: vec![join(&mfqn, o.name())], depth: depth + 1 });
        }
        for e in &m.enum_type {
            enum_decls(&mut out, &mfqn, depth + 1, e);
        }
        for n in &m.nested_type {
            work.push_back((mfqn.clone(), n, depth + 1));
        }
    }
    for e in &fd.enum_type {
        enum_decls(&mut out, &pkg, 0, e);
    }
    for s in &fd.service {
        let sfqn = join(&pkg, s.name());
        out.push(Decl { kind: Kind::Service, names: vec![sfqn.clone()], depth: 0 });
        for m in &s.method {
            out.push(Decl { kind: Kind::Method, names: vec![join(&sfqn, m.name())], depth: 0 });
        }
    }
    out
}

/// Fully-qualified names of the services declared by `fd`, in declaration order.
pub fn services(fd: &FileDescriptorProto) -> Vec<String> {
    fd.service.iter().map(|s| join(fd.package(), s.name())).collect()
}

/// The package of `fd` and every dotted prefix of it (`p.q` gives `p`, `p.q`). protobuf treats
/// these as symbols of kind "package"; the reflection property neither requires nor forbids them.
pub fn package_prefixes(fd: &FileDescriptorProto) -> Vec<String> {
    let pkg = fd.package();
    let mut out = vec![];
    if pkg.is_empty() {
        return out;
    }
    for (i, c) in pkg.char_indices() {
        if c == '.' {
            out.push(pkg[..i].to_string());
        }
    }
    out.push(pkg.to_string());
    out
}

#[cfg(test)]
mod tests {
    use super::*;
    #[test]
    fn join_works() {
        assert_eq!(join("", "A"), "A");
        assert_eq!(join("p.q", "A"), "p.q.A");
    }
}
