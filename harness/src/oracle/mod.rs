//! Independent oracles. Nothing in this module calls into tonic.
pub mod b64;
pub mod comp;
pub mod fqn;
pub mod pct;
pub mod tables;
pub mod timeout;
pub mod wire;
