//! gRPC length-prefixed message framing and grpc-web framing, written from the protocol
//! documents (PROTOCOL-HTTP2.md, PROTOCOL-WEB.md). Shares no code with tonic.

#[derive(Debug, Clone, PartialEq, Eq)]
pub struct Frame {
    pub flag: u8,
    pub payload: Vec<u8>,
}

#[derive(Debug, Clone, PartialEq, Eq)]
pub enum ParseEnd {
    /// Input consumed exactly.
    Clean,
    /// Input ended inside a prefix or payload at this offset (offset of the frame start).
    Truncated { frame_start: usize },
    /// A flag byte outside the allowed set at this offset.
    BadFlag { at: usize, flag: u8 },
}

/// Parse as many complete frames as possible. `allowed_flags` decides which flag bytes are legal
/// (gRPC: 0,1; grpc-web adds 0x80/0x81 for trailers).
pub fn parse_frames(input: &[u8], allowed: &[u8]) -> (Vec<Frame>, ParseEnd) {
    let mut out = vec![];
    let mut p = 0usize;
    loop {
        if p == input.len() {
            return (out, ParseEnd::Clean);
        }
        if !allowed.contains(&input[p]) {
            return (out, ParseEnd::BadFlag { at: p, flag: input[p] });
        }
        if input.len() - p < 5 {
            return (out, ParseEnd::Truncated { frame_start: p });
        }
        let len = ((input[p + 1] as usize) << 24)
            | ((input[p + 2] as usize) << 16)
            | ((input[p + 3] as usize) << 8)
            | (input[p + 4] as usize);
        if input.len() - p - 5 < len {
            return (out, ParseEnd::Truncated { frame_start: p });
        }
        out.push(Frame { flag: input[p], payload: input[p + 5..p + 5 + len].to_vec() });
        p += 5 + len;
    }
}

pub fn encode_frame(flag: u8, payload: &[u8]) -> Vec<u8> {
    let mut v = Vec::with_capacity(5 + payload.len());
    v.push(flag);
    let l = payload.len() as u32;
    v.push((l >> 24) as u8);
    v.push((l >> 16) as u8);
    v.push((l >> 8) as u8);
    v.push(l as u8);
    v.extend_from_slice(payload);
    v
}

/// Offsets strictly inside a frame (inside the 5-byte prefix or inside a payload), i.e. every
/// offset that is not a frame boundary.
pub fn interior_offsets(frames: &[Frame]) -> Vec<usize> {
    let mut v = vec![];
    let mut p = 0;
    for f in frames {
        let l = 5 + f.payload.len();
        for k in 1..l {
            v.push(p + k);
        }
        p += l;
    }
    v
}

/// grpc-web trailers block: HTTP/1-style `name: value\r\n` lines (PROTOCOL-WEB.md: "trailers are
/// encoded as a HTTP/1 headers block, without the terminating newline").
/// Returns a multimap in order; names are lower-cased, optional whitespace around the value is
/// trimmed (HTTP/1 OWS rule), the value keeps every further ':'.
pub fn parse_trailer_block(block: &[u8]) -> Result<Vec<(String, Vec<u8>)>, String> {
    let mut out = vec![];
    let mut rest = block;
    while !rest.is_empty() {
        let (line, next) = match find_crlf(rest) {
            Some(i) => (&rest[..i], &rest[i + 2..]),
            None => (rest, &rest[rest.len()..]),
        };
        rest = next;
        if line.is_empty() {
            continue;
        }
        let Some(c) = line.iter().position(|b| *b == b':') else {
            return Err(format!("trailer line without colon: {:?}", String::from_utf8_lossy(line)));
        };
        let name = String::from_utf8_lossy(&line[..c]).trim().to_ascii_lowercase();
        let mut val = &line[c + 1..];
        while let [b' ' | b'\t', r @ ..] = val {
            val = r;
        }
        while let [r @ .., b' ' | b'\t'] = val {
            val = r;
        }
        out.push((name, val.to_vec()));
    }
    Ok(out)
}

fn find_crlf(b: &[u8]) -> Option<usize> {
    b.windows(2).position(|w| w == b"\r\n")
}

/// Encode a trailers block. `space`: write `name: value` instead of `name:value`.
pub fn encode_trailer_block(trailers: &[(String, Vec<u8>)], space: bool) -> Vec<u8> {
    let mut v = vec![];
    for (k, val) in trailers {
        v.extend_from_slice(k.as_bytes());
        v.push(b':');
        if space {
            v.push(b' ');
        }
        v.extend_from_slice(val);
        v.extend_from_slice(b"\r\n");
    }
    v
}
