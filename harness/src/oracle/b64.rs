//! Base64 (RFC 4648 standard alphabet), written by hand.

const ALPHA: &[u8; 64] = b"ABCDEFGHIJKLMNOPQRSTUVWXYZabcdefghijklmnopqrstuvwxyz0123456789+/";

pub fn encode(input: &[u8], pad: bool) -> String {
    let mut s = String::new();
    for chunk in input.chunks(3) {
        let b0 = chunk[0] as u32;
        let b1 = *chunk.get(1).unwrap_or(&0) as u32;
        let b2 = *chunk.get(2).unwrap_or(&0) as u32;
        let n = (b0 << 16) | (b1 << 8) | b2;
        s.push(ALPHA[(n >> 18) as usize & 63] as char);
        s.push(ALPHA[(n >> 12) as usize & 63] as char);
        if chunk.len() > 1 {
            s.push(ALPHA[(n >> 6) as usize & 63] as char);
        } else if pad {
            s.push('=');
        }
        if chunk.len() > 2 {
            s.push(ALPHA[n as usize & 63] as char);
        } else if pad {
            s.push('=');
        }
    }
    s
}

fn val(c: u8) -> Option<u32> {
    ALPHA.iter().position(|a| *a == c).map(|p| p as u32)
}

/// Decode padded or unpadded base64. Padding is only allowed at the end and must complete a
/// quantum; trailing bits must be zero (canonical) unless `lenient_bits`.
pub fn decode(input: &[u8]) -> Result<Vec<u8>, String> {
    let mut body = input;
    let mut pads = 0;
    while let [r @ .., b'='] = body {
        body = r;
        pads += 1;
    }
    if pads > 2 {
        return Err("too much padding".into());
    }
    if pads > 0 && (body.len() + pads) % 4 != 0 {
        return Err("padding does not complete a quantum".into());
    }
    if body.len() % 4 == 1 {
        return Err("length = 1 mod 4".into());
    }
    let mut out = vec![];
    for chunk in body.chunks(4) {
        let mut n: u32 = 0;
        for (i, c) in chunk.iter().enumerate() {
            let v = val(*c).ok_or_else(|| format!("bad symbol {c:#x}"))?;
            n |= v << (18 - 6 * i);
        }
        out.push((n >> 16) as u8);
        if chunk.len() > 2 {
            out.push((n >> 8) as u8);
        }
        if chunk.len() > 3 {
            out.push(n as u8);
        }
    }
    Ok(out)
}

/// Decode a concatenation of independently padded base64 segments (grpc-web-text streams).
pub fn decode_concat(input: &[u8]) -> Result<Vec<u8>, String> {
    if input.len() % 4 != 0 {
        return Err(format!("text body length {} is not a multiple of 4", input.len()));
    }
    let mut out = vec![];
    for q in input.chunks(4) {
        out.extend(decode(q)?);
    }
    Ok(out)
}
