//! Percent-decoding as gRPC's `grpc-message` requires (PROTOCOL-HTTP2.md: Percent-Encoded).

/// Strict decode: every '%' must be followed by two hex digits; the result must be UTF-8.
pub fn decode_strict(input: &[u8]) -> Result<String, String> {
    let mut out = vec![];
    let mut i = 0;
    while i < input.len() {
        if input[i] == b'%' {
            let h = hexval(*input.get(i + 1).ok_or("truncated escape")?).ok_or("bad hex")?;
            let l = hexval(*input.get(i + 2).ok_or("truncated escape")?).ok_or("bad hex")?;
            out.push(h * 16 + l);
            i += 3;
        } else {
            out.push(input[i]);
            i += 1;
        }
    }
    String::from_utf8(out).map_err(|e| e.to_string())
}

fn hexval(c: u8) -> Option<u8> {
    match c {
        b'0'..=b'9' => Some(c - b'0'),
        b'a'..=b'f' => Some(c - b'a' + 10),
        b'A'..=b'F' => Some(c - b'A' + 10),
        _ => None,
    }
}

/// gRPC says: bytes outside %x20-%x24 / %x26-%x7E must be percent-encoded.
pub fn is_legal_unescaped(b: u8) -> bool {
    (0x20..=0x7e).contains(&b) && b != b'%'
}

/// Percent-encode what the gRPC spec requires in `grpc-message` (everything outside
/// 0x20..=0x7E, plus '%'), upper-case hex.
pub fn encode_minimal(msg: &str) -> String {
    let mut out = String::new();
    for b in msg.bytes() {
        if (0x20..=0x7e).contains(&b) && b != b'%' {
            out.push(b as char);
        } else {
            out.push_str(&format!("%{b:02X}"));
        }
    }
    out
}
