//! gzip / zlib / zstd through flate2 and zstd used directly.
use std::io::Read;

#[derive(Clone, Copy, Debug, PartialEq, Eq)]
pub enum Enc {
    Gzip,
    Deflate,
    Zstd,
}

impl Enc {
    pub fn name(&self) -> &'static str {
        match self {
            Enc::Gzip => "gzip",
            Enc::Deflate => "deflate",
            Enc::Zstd => "zstd",
        }
    }
    pub fn from_name(s: &str) -> Option<Enc> {
        match s {
            "gzip" => Some(Enc::Gzip),
            "deflate" => Some(Enc::Deflate),
            "zstd" => Some(Enc::Zstd),
            _ => None,
        }
    }
    pub const ALL: [Enc; 3] = [Enc::Gzip, Enc::Deflate, Enc::Zstd];
}

/// Decompress and require that the whole input is one complete stream of that format.
pub fn decompress(enc: Enc, data: &[u8]) -> Result<Vec<u8>, String> {
    let mut out = vec![];
    match enc {
        Enc::Gzip => {
            let mut d = flate2::read::GzDecoder::new(data);
            d.read_to_end(&mut out).map_err(|e| e.to_string())?;
            if d.header().is_none() {
                return Err("no gzip header".into());
            }
        }
        Enc::Deflate => {
            // gRPC "deflate" is the zlib format (RFC 1950)
            let mut d = flate2::read::ZlibDecoder::new(data);
            d.read_to_end(&mut out).map_err(|e| e.to_string())?;
        }
        Enc::Zstd => {
            let mut d = zstd::stream::read::Decoder::new(data).map_err(|e| e.to_string())?;
            d.read_to_end(&mut out).map_err(|e| e.to_string())?;
        }
    }
    Ok(out)
}

pub fn compress(enc: Enc, data: &[u8]) -> Vec<u8> {
    let mut out = vec![];
    match enc {
        Enc::Gzip => {
            flate2::read::GzEncoder::new(data, flate2::Compression::new(6))
                .read_to_end(&mut out)
                .unwrap();
        }
        Enc::Deflate => {
            flate2::read::ZlibEncoder::new(data, flate2::Compression::new(6))
                .read_to_end(&mut out)
                .unwrap();
        }
        Enc::Zstd => {
            zstd::stream::read::Encoder::new(data, 3)
                .unwrap()
                .read_to_end(&mut out)
                .unwrap();
        }
    }
    out
}
