//! `grpc-timeout` grammar from PROTOCOL-HTTP2.md:
//!   Timeout → "grpc-timeout" TimeoutValue TimeoutUnit
//!   TimeoutValue → {positive integer as ASCII string of at most 8 digits}
//!   TimeoutUnit → "H" / "M" / "S" / "m" / "u" / "n"
use std::time::Duration;

pub const UNITS: [(u8, u128); 6] = [
    (b'H', 3_600_000_000_000),
    (b'M', 60_000_000_000),
    (b'S', 1_000_000_000),
    (b'm', 1_000_000),
    (b'u', 1_000),
    (b'n', 1),
];

pub fn unit_nanos(u: u8) -> Option<u128> {
    UNITS.iter().find(|(c, _)| *c == u).map(|(_, n)| *n)
}

/// Parse a conformant value; `None` when the string does not match `^[0-9]{1,8}[HMSmun]$`.
pub fn parse(s: &[u8]) -> Option<Duration> {
    if s.len() < 2 || s.len() > 9 {
        return None;
    }
    let (digits, unit) = s.split_at(s.len() - 1);
    if !digits.iter().all(|c| c.is_ascii_digit()) {
        return None;
    }
    let per = unit_nanos(unit[0])?;
    let mut v: u128 = 0;
    for d in digits {
        v = v * 10 + (*d - b'0') as u128;
    }
    let nanos = v * per;
    Some(Duration::new((nanos / 1_000_000_000) as u64, (nanos % 1_000_000_000) as u32))
}
