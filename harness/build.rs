//! Generates the fixture services with the *real* tonic_build (manual front end, no protoc), so
//! that generator changes in /repo are rebuilt into the harness.
use tonic_build::manual::{Builder, Method, Service};

const RAW: &str = "crate::props::codec_common::RawCodec";
const BYTES: &str = "::std::vec::Vec<u8>";

fn method(name: &str, route: &str, cs: bool, ss: bool) -> Method {
    let mut m = Method::builder()
        .name(name)
        .route_name(route)
        .input_type(BYTES)
        .output_type(BYTES)
        .codec_path(RAW);
    if cs {
        m = m.client_streaming();
    }
    if ss {
        m = m.server_streaming();
    }
    m.build()
}

fn main() {
    println!("cargo:rerun-if-changed=build.rs");
    println!("cargo:rerun-if-changed=/repo/tonic-build/src");
    let out = std::path::PathBuf::from(std::env::var("OUT_DIR").unwrap());

    // fx.Echo: the four call shapes over raw byte messages
    let echo = Service::builder()
        .name("Echo")
        .package("fx")
        .method(method("unary", "Unary", false, false))
        .method(method("server_stream", "ServerStream", false, true))
        .method(method("client_stream", "ClientStream", true, false))
        .method(method("bidi", "Bidi", true, true))
        .build();
    // fx.PEcho: prost codec
    let pm = "crate::props::codec_common::PMsg";
    let pecho = Service::builder()
        .name("PEcho")
        .package("fx")
        .method(
            Method::builder()
                .name("unary")
                .route_name("Unary")
                .input_type(pm)
                .output_type(pm)
                .codec_path("tonic::codec::ProstCodec")
                .build(),
        )
        .method(
            Method::builder()
                .name("bidi")
                .route_name("Bidi")
                .input_type(pm)
                .output_type(pm)
                .codec_path("tonic::codec::ProstCodec")
                .client_streaming()
                .server_streaming()
                .build(),
        )
        .build();
    Builder::new().out_dir(&out).compile(&[echo, pecho]);

    // routing universe (C10): names that are prefixes / case variants of one another
    for (pkg, name) in [("a", "Sv"), ("a", "SvX"), ("a", "sv"), ("", "Sv"), ("x.a", "Sv")] {
        let s = Service::builder()
            .name(name)
            .package(pkg)
            .method(method("m_upper", "M", false, false))
            .method(method("mn", "MN", false, false))
            .method(method("m_lower", "m", false, false))
            .build();
        let dir = out.join(format!("route_{}_{}", pkg.replace('.', "_"), name));
        std::fs::create_dir_all(&dir).unwrap();
        Builder::new().out_dir(&dir).compile(&[s]);
    }
}
